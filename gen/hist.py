"""Operation histories over the script language (G_hist) with an abstract message model.

`AMsg` is the abstract message (header word, question, three record lists); `apply_*` are the abstract
operations the mutating API must refine (C09); `Builder` generates a history while simulating its effect
on the abstract message, so every step carries the expected observation and the expected message."""
import copy
import struct

import dnsgen as G
import textgen as T

SEC = ["an", "ns", "ar"]


class ARec:
    def __init__(self, name, t, c, ttl, rd):
        self.name, self.t, self.c, self.ttl, self.rd = list(name), t, c, ttl, rd  # rd: ('raw', b) | ('name', l) | ('mx', pref2, l) | ('soa', l, l, tail)

    def key(self, ci):
        f = (lambda ls: tuple(bytes(x).lower() for x in ls)) if ci else (lambda ls: tuple(bytes(x) for x in ls))
        rd = self.rd
        if rd[0] == "name":
            rdk = ("name", f(rd[1]))
        elif rd[0] == "mx":
            rdk = ("mx", rd[1], f(rd[2]))
        elif rd[0] == "soa":
            rdk = ("soa", f(rd[1]), f(rd[2]), rd[3])
        else:
            rdk = ("raw", rd[1])
        return (f(self.name), self.t, self.c, self.ttl, rdk)

    def wire(self):
        rd = self.rd
        if rd[0] == "name":
            d = G.wire_name(rd[1])
        elif rd[0] == "mx":
            d = rd[1] + G.wire_name(rd[2])
        elif rd[0] == "soa":
            d = G.wire_name(rd[1]) + G.wire_name(rd[2]) + rd[3]
        else:
            d = rd[1]
        return G.wire_name(self.name) + struct.pack(">HHIH", self.t, self.c, self.ttl, len(d) & 0xFFFF) + d


class AMsg:
    def __init__(self):
        self.tid, self.flags = 0, 0
        self.q = None  # (labels, type, class)
        self.secs = [[], [], []]

    def key(self, ci=True):
        f = (lambda ls: tuple(bytes(x).lower() for x in ls)) if ci else (lambda ls: tuple(bytes(x) for x in ls))
        q = None if self.q is None else (tuple(bytes(x) for x in self.q[0]), self.q[1], self.q[2])  # question name byte-identical
        if ci and q is not None:
            q = (f(self.q[0]), self.q[1], self.q[2])
        return (self.tid, self.flags, q, tuple(tuple(r.key(ci) for r in s) for s in self.secs))

    def wire(self):
        """Canonical pointer-free encoding."""
        out = struct.pack(">HHHHHH", self.tid, self.flags, 0 if self.q is None else 1, len(self.secs[0]), len(self.secs[1]), len(self.secs[2]))
        if self.q is not None:
            out += G.wire_name(self.q[0]) + struct.pack(">HH", self.q[1], self.q[2])
        for s in self.secs:
            for r in s:
                out += r.wire()
        return out

    def opt(self):
        for r in self.secs[2]:
            if r.t == G.T_OPT:
                return r
        return None


def amsg_of(m):
    """Abstract message of a reference decoding (gen/dnsgen.py DMsg)."""
    a = AMsg()
    a.tid, a.flags = m.tid, m.flags
    a.q = (list(m.qname), m.qtype, m.qclass)
    for si, recs in enumerate(m.sections):
        for r in recs:
            if r.rtype in G.NAME_TYPES:
                rd = ("name", list(r.names[0][0]))
            elif r.rtype == G.T_MX:
                rd = ("mx", r.rdata[:2], list(r.names[0][0]))
            elif r.rtype == G.T_SOA:
                rd = ("soa", list(r.names[0][0]), list(r.names[1][0]), r.rdata[-20:])
            else:
                rd = ("raw", r.rdata)
            a.secs[si].append(ARec(r.name, r.rtype, r.rclass, r.ttl, rd))
    return a


def decode_bytes(b):
    """Abstract message of raw bytes; tolerates the question-less packets of known-finding class (i) by
    decoding them with a permissive header."""
    try:
        return amsg_of(G.decode_ref(b))
    except (G.Reject, IndexError):
        return None


def decode_lenient(b):
    """Like decode_bytes, but also decodes packets the parser rejects only because qdcount = 0 or because
    answer/authority records are present while QR = 0 (known-finding classes): the records are still read."""
    a = decode_bytes(b)
    if a is not None:
        return a
    if len(b) < 12:
        return None
    qd = (b[4] << 8) | b[5]
    flags = (b[2] << 8) | b[3]
    try:
        if qd == 0:
            fake = bytearray(b[:12]) + G.wire_name([]) + struct.pack(">HH", 1, 1) + bytearray(b[12:])
            fake[4:6] = b"\0\1"
            fake[2] |= 0x80
            m = G.decode_ref(bytes(fake))
            a = amsg_of(m)
            a.q = None
            a.flags = flags
            return a
        fake = bytearray(b)
        fake[2] |= 0x80
        m = G.decode_ref(bytes(fake))
        a = amsg_of(m)
        a.flags = flags
        return a
    except (G.Reject, IndexError):
        return None


# ---- abstract rename (C07) --------------------------------------------------------------------------

def lower_labels(ls):
    return [bytes(l).lower() for l in ls]


def replace_name(n, target, source, suffix):
    """(new name, overflow?)"""
    ln, ls = lower_labels(n), lower_labels(source)
    if suffix:
        if len(ln) >= len(ls) and len(ls) > 0 and ln[len(ln) - len(ls):] == ls:
            new = list(n[:len(n) - len(ls)]) + list(target)
            return new, G.wire_len(new) > 255
        return list(n), False
    if ln == ls:
        return list(target), G.wire_len(target) > 255
    return list(n), False


def apply_rename(a, target, source, suffix):
    """Abstract rename; returns None when some rewritten name would exceed 255 bytes."""
    b = copy.deepcopy(a)
    over = False
    if b.q is not None:
        n, o = replace_name(b.q[0], target, source, suffix)
        over |= o
        b.q = (n, b.q[1], b.q[2])
    for s in b.secs:
        for r in s:
            if r.t == G.T_OPT:
                continue
            r.name, o = replace_name(r.name, target, source, suffix)
            over |= o
            if r.rd[0] == "name":
                n, o = replace_name(r.rd[1], target, source, suffix)
                over |= o
                r.rd = ("name", n)
            elif r.rd[0] == "mx":
                n, o = replace_name(r.rd[2], target, source, suffix)
                over |= o
                r.rd = ("mx", r.rd[1], n)
            elif r.rd[0] == "soa":
                n1, o1 = replace_name(r.rd[1], target, source, suffix)
                n2, o2 = replace_name(r.rd[2], target, source, suffix)
                over |= o1 | o2
                r.rd = ("soa", n1, n2, r.rd[3])
    return None if over else b


# ---- history builder ----------------------------------------------------------------------------------

def hx(b):
    return bytes(b).hex() if b else "-"


def name_text(labels):
    return b".".join(bytes(l).replace(b".", b"\\046") for l in labels).lower()


class Step:
    """One operation of a history with what the abstract model expects."""

    def __init__(self, op, kind, expect_out=None, expect_msg=None, expect_err=None, note=None):
        self.op, self.kind = op, kind
        self.expect_out = expect_out      # exact observation string, or None if not predicted
        self.expect_msg = expect_msg      # AMsg after the step (None = unchanged or not predicted)
        self.expect_err = expect_err      # None | 'any' | variant name
        self.note = note or {}


class Builder:
    def __init__(self, rng, a, flags=None):
        self.rng = rng
        self.a = copy.deepcopy(a)
        self.steps = []
        self.flags = set(flags or [])   # known-finding classes this history enters
        self.uniq = 0

    def fresh_label(self):
        self.uniq += 1
        return b"n%d" % self.uniq

    # -- header
    def header_op(self):
        rng, a = self.rng, self.a
        k = rng.choice(["st", "sf", "sr", "so", "sp"])
        if k == "st":
            v = rng.randint(0, 65535)
            a.tid = v
        elif k == "sf":
            v = rng.choice([0, 0xFFFFFFFF, rng.getrandbits(32), rng.getrandbits(16)])
            if (a.secs[0] or a.secs[1]) and not (v & 0x8000):
                v |= 0x8000  # keep QR on a message with answers (class qr-gating is generated separately)
            a.flags = (a.flags & 0x780F) | (v & 0x87F0)
        elif k == "sr":
            v = rng.randint(0, 255)
            a.flags = (a.flags & 0xFFF0) | (v & 15)
        elif k == "so":
            v = rng.randint(0, 255)
            a.flags = (a.flags & 0x87FF) | ((v & 15) << 11)
        else:
            v = 1 if (a.secs[0] or a.secs[1]) else rng.randint(0, 1)
            a.flags = (a.flags & 0x7FFF) | (v << 15)
        self.steps.append(Step("%s,%d" % (k, v), "header", "OK", copy.deepcopy(a)))

    def qr_break_op(self):
        """Known-finding class (ii): clear QR on a message that has answer/authority records."""
        a = self.a
        a.flags &= 0x7FFF
        self.flags.add("qr-gating")
        self.steps.append(Step("sp,0", "header", "OK", copy.deepcopy(a)))

    # -- insertion
    def insert_op(self, bad=False, big=False):
        rng, a = self.rng, self.a
        si = rng.randrange(3)
        # one insertion in eight uses the boundary shapes of the synthesis grammar (maximal names, TXT of 255 / 3825 bytes)
        big = big or rng.random() < 0.125
        r = T.rand_record(rng, boundary=big)
        while not T.grammar_ok(r):
            r = T.rand_record(rng)
        text = T.render(rng, r)
        if bad:
            ds = T.damage(rng, r)
            text = rng.choice(ds)
            self.steps.append(Step("I,%s,%s" % (SEC[si], hx(text)), "insert-bad", None, None, "any"))
            return
        w = T.wire(r)
        m = G.decode_ref(struct.pack(">HHHHHH", 0, 0x8000, 1, 1, 0, 0) + b"\0" + struct.pack(">HH", 1, 1) + w)
        rec = amsg_of(m).secs[0][0]
        if si < 2 and not (a.flags & 0x8000):
            if "allow-qr-gating" in self.flags:
                self.flags.add("qr-gating")
            else:
                # make it a response first: answer/authority records in a query are known-finding class (ii)
                a.flags |= 0x8000
                self.steps.append(Step("sp,1", "header", "OK", copy.deepcopy(a)))
        cur_len = len(a.wire())
        if cur_len + len(w) > 8192:
            self.steps.append(Step("I,%s,%s" % (SEC[si], hx(text)), "insert-too-large", None, None, "PacketTooLarge"))
            return
        a.secs[si].append(rec)
        self.steps.append(Step("I,%s,%s" % (SEC[si], hx(text)), "insert", "OK", copy.deepcopy(a), None, {"sec": si}))

    def second_question_op(self):
        nm = T.dotted(T.rand_hostname(self.rng))
        if self.a.q is None:
            labels = T.expected_labels(nm, None)
            self.a.q = (labels, 1, 1)
            self.flags.discard("no-question")
            self.steps.append(Step("IQ,%s,1" % hx(nm), "insert-question", "OK", copy.deepcopy(self.a)))
        else:
            self.steps.append(Step("IQ,%s,1" % hx(nm), "second-question", None, None, "any"))

    # -- rename
    def rename_op(self, overflow=False):
        rng, a = self.rng, self.a
        names = []
        if a.q is not None:
            names.append(a.q[0])
        for s in a.secs:
            for r in s:
                if r.t != G.T_OPT:
                    names.append(r.name)
                    if r.rd[0] in ("name",):
                        names.append(r.rd[1])
                    elif r.rd[0] == "mx":
                        names.append(r.rd[2])
                    elif r.rd[0] == "soa":
                        names += [r.rd[1], r.rd[2]]
        names = [n for n in names if len(n) > 0 and all(G._label_ok(l) for l in n)]
        suffix = rng.random() < 0.6
        if names and rng.random() < 0.85:
            n = rng.choice(names)
            src = list(n[rng.randrange(len(n)):]) if suffix else list(n)
            if rng.random() < 0.3:
                src = [bytes(l).swapcase() for l in src]
        else:
            src = [b"nomatch", b"example"]
        if overflow:
            tgt = G.name_of_wire_len(250)
        else:
            tgt = [self.fresh_label()] + [rng.choice([b"renamed", b"Net", b"x" * 20])]
        exp = apply_rename(a, tgt, src, suffix)
        op = "rn,%s,%s,%d" % (hx(G.wire_name(tgt)), hx(G.wire_name(src)), 1 if suffix else 0)
        if exp is None:
            self.steps.append(Step(op, "rename-overflow", None, None, "any"))
        else:
            self.a = exp
            self.steps.append(Step(op, "rename", "OK", copy.deepcopy(exp)))

    def getter_op(self, which=None):
        """A question getter (fills or reads the cached question)."""
        a = self.a
        g = which or self.rng.choice(["q0", "q0", "q1", "q2", "qt"])
        if a.q is None:
            exp = {"q0": "q0=-", "q1": "q1=-", "q2": "q2=-", "qt": "qt=-"}[g]
        else:
            wn = G.wire_name(a.q[0])
            exp = {"q0": "q0=%s/%d/%d" % (hx(wn), a.q[1], a.q[2]), "q1": "q1=%s/%d/%d" % (hx(wn[:-1]), a.q[1], a.q[2]),
                   "q2": "q2=%s/%d/%d" % (hx(name_text(a.q[0])), a.q[1], a.q[2]), "qt": "qt=%d/%d" % (a.q[1], a.q[2])}[g]
        self.steps.append(Step(g, "getter", exp if g in ("q2", "qt") else None, copy.deepcopy(a), None, {"ci": exp}))

    def recompute_op(self):
        self.steps.append(Step("rc", "recompute", "OK", copy.deepcopy(self.a)))

    # -- walks
    def walk_op(self, si=None, mode="mixed", incl=None, delete_set=None, c_safe=False):
        """A walk over section si with actions chosen while simulating the abstract walk.
        mode: 'read' | 'mixed' | 'delete'. Returns nothing; appends a step."""
        rng, a = self.rng, self.a
        if si is None:
            si = rng.randrange(3)
        if incl is None:
            incl = rng.random() < 0.5
        recs = a.secs[si]
        plan, out = [], []
        pos, k = 0, 0
        single_at, single_done = None, False
        deleted_tags, yielded = [], []
        guard = 0
        truncated = False
        while True:
            guard += 1
            if guard > 400:
                truncated = True    # the plan stops here: what the walk yields afterwards (names only) is not part of the expectation
                break
            # next yieldable
            while pos < len(recs) and recs[pos].t == G.T_OPT and not (incl and si == 2):
                pos += 1
            if pos >= len(recs):
                break
            rec = recs[pos]
            acts, obs = ["n"], ["|", "n=" + hx(name_text(rec.name))]
            yielded.append(id(rec))
            is_opt = rec.t == G.T_OPT
            nchoices = 1 if (mode != "mixed" or is_opt) else rng.choice([1, 1, 1, 2, 2, 3])
            if mode == "single" and single_at is None:
                single_at = rng.randrange(max(1, len([r for r in recs if r.t != G.T_OPT])))
            for ci in range(nchoices):
                choice = "read"
                if mode == "delete":
                    choice = "X" if (delete_set is not None and id(rec) in delete_set) else "read"
                elif mode == "mixed" and not is_opt and c_safe:
                    # only what the C table offers, within its documented preconditions
                    choice = rng.choice(["read", "T", "M", "M", "X", "Merr"] + (["A", "A"] if rec.t in (G.T_A, G.T_AAAA) else []))
                elif mode == "mixed" and not is_opt:
                    choice = rng.choice(["read", "read", "T", "A", "M", "M", "X", "V", "Merr"])
                elif mode == "mixed" and is_opt:
                    choice = rng.choice(["read", "read", "X"])
                elif mode == "uncompress" and not is_opt and k == 0:
                    choice = "V"
                elif mode == "single" and not is_opt and k == single_at and not single_done:
                    choice = rng.choice(["M", "M", "M", "T", "X", "A"])
                    single_done = True
                if choice == "read" and rec.t in (G.T_A, G.T_AAAA) and rec.rd[0] == "raw" and len(rec.rd[1]) == (4 if rec.t == G.T_A else 16):
                    # the address as the packet has it (special kinds included: mapped, compatible, unspecified ...)
                    acts += ["i"]
                    obs += ["i=" + hx(rec.rd[1])]
                if choice == "T":
                    t = rng.choice([0, 1, 2 ** 32 - 1, rng.getrandbits(32)])
                    rec.ttl = t
                    acts += ["T%d" % t, "l"]
                    obs += ["T=OK", "l=%d" % t]
                elif choice == "A":
                    if rec.t == G.T_A:
                        ip = bytes(rng.getrandbits(8) for _ in range(4))
                        rec.rd = ("raw", ip)
                        acts += ["A" + hx(ip), "i"]
                        obs += ["A=OK", "i=" + hx(ip)]
                    elif rec.t == G.T_AAAA:
                        ip = bytes(rng.getrandbits(8) for _ in range(16))
                        if rng.random() < 0.3:
                            ip = rng.choice([b"\0" * 10 + b"\xff\xff" + ip[:4], b"\0" * 12 + ip[:4], b"\0" * 16, b"\0" * 15 + b"\1"])
                        rec.rd = ("raw", ip)
                        acts += ["A" + hx(ip), "i"]
                        obs += ["A=OK", "i=" + hx(ip)]
                    else:
                        acts += ["A01020304"]
                        obs += ["A=ERR:PropertyNotFound"]
                elif choice == "M":
                    ln = rng.choice([1, 1, 2, 3, 4])
                    nm = [self.fresh_label()] + [rng.choice([b"example", b"COM", b"y" * rng.choice([1, 30, 62])]) for _ in range(ln - 1)]
                    if rng.random() < 0.1:
                        nm = []
                    rec.name = nm
                    # the setter takes the encoded name the slice STARTS with: bytes after the root label (a caller handing over a whole
                    # name buffer) must be ignored
                    junk = bytes(rng.getrandbits(8) for _ in range(rng.choice([1, 2, 7, 200]))) if (rng.random() < 0.25 and not c_safe) else b""
                    if c_safe:
                        acts += ["M" + hx(G.wire_name(nm)), "n"]
                        obs += ["M=OK", "n=" + hx(name_text(nm))]
                    else:
                        acts += ["M" + hx(G.wire_name(nm) + junk), "n", "o"]
                        obs += ["M=OK", "n=" + hx(name_text(nm)), None]
                elif choice == "Merr":
                    bad = rng.choice([b"\x03ab", b"\x40" + b"a" * 64 + b"\0", b"\x03a.b\0", b"\x03a\x01b\0", b"\xc0\x0c", b"", G.wire_name(G.name_of_wire_len(255))[:-1] + b"\x01a\0"])
                    acts += ["M" + hx(bad), "n"]
                    obs += ["M=ERR", "n=" + hx(name_text(rec.name))]
                elif choice == "V":
                    acts += ["V", "n"]
                    obs += ["V=OK", "n=" + hx(name_text(rec.name))]
                if choice == "X" and c_safe:
                    acts += ["X", "X"]
                    obs += ["X=OK", "X=ERR:VoidRecord"]
                elif choice == "X":
                    acts += ["X", "X", "o"]
                    obs += ["X=OK", "X=ERR:VoidRecord", "o=-/-"]
                if choice in ("T", "A", "M", "Merr", "V") and not c_safe and rng.random() < 0.7:
                    # the fixed fields of the same item, read through the same cursor right after the mutation
                    acts += ["t", "c", "l"]
                    obs += ["t=%d" % rec.t, "c=%d" % rec.c, "l=%d" % rec.ttl]
                if choice == "X":
                    break
            if choice == "X":
                deleted_tags.append(id(rec))
                recs.pop(pos)
                pos = 0  # a tombstoned cursor restarts from the section start
            else:
                pos += 1
            plan.append(".".join(acts))
            out.append(obs)
            k += 1
        op = "W,%s,%d,%s" % (SEC[si], 1 if incl else 0, "/".join(plan + ["*n"]))
        self.steps.append(Step(op, "walk-" + mode, out, copy.deepcopy(a), None, {"sec": si, "incl": incl, "yields": k, "truncated": truncated}))

    def question_walk_op(self, action):
        """Walk the question: 'read' | 'M' | 'X'."""
        a = self.a
        if a.q is None:
            self.steps.append(Step("W,q,0,*n", "walk-q", [], copy.deepcopy(a)))
            return
        acts, obs = ["n", "t"], ["|", "n=" + hx(name_text(a.q[0])), "t=%d" % a.q[1]]
        if action == "M":
            nm = [self.fresh_label(), b"example"]
            a.q = (nm, a.q[1], a.q[2])
            junk = bytes(self.rng.getrandbits(8) for _ in range(self.rng.choice([1, 3, 240]))) if self.rng.random() < 0.25 else b""
            acts += ["M" + hx(G.wire_name(nm) + junk), "n"]
            obs += ["M=OK", "n=" + hx(name_text(nm))]
        elif action == "X":
            a.q = None
            self.flags.add("no-question")
            acts += ["X", "X"]
            obs += ["X=OK", "X=ERR:VoidRecord"]
        op = "W,q,0,%s/*n" % ".".join(acts)
        self.steps.append(Step(op, "walk-q-" + action, [obs], copy.deepcopy(a)))

    def opt_ttl_op(self):
        """Known-finding class (iii): TTL write on the OPT pseudo-record through an including-OPT cursor."""
        a = self.a
        plan = []
        for r in a.secs[2]:
            if r.t == G.T_OPT:
                t = self.rng.getrandbits(32)
                r.ttl = t
                plan.append("n.T%d" % t)
                self.flags.add("opt-ttl")
            else:
                plan.append("n")
        self.steps.append(Step("W,ar,1,%s/*n" % "/".join(plan), "walk-opt-ttl", None, copy.deepcopy(a)))

    def line(self, first):
        """The case line: every step is followed by the observations the oracles need."""
        ops = [first, "v", "fp", "ca", "b"]
        for s in self.steps:
            ops += [s.op, "v", "fp", "ca", "b"]
        return "\t".join(ops)
