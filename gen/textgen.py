"""Record texts for RR::from_string (C13) and host names for raw_name_from_str (C14).

An abstract record is generated first; `render` prints it in the supported grammar with arbitrary
horizontal whitespace and keyword case; `wire` is the RFC 1035 encoding computed independently
(the oracle). `damage` produces texts the grammar excludes."""
import struct

import dnsgen as G

LDH = b"abcdefghijklmnopqrstuvwxyzABCDEFGHIJKLMNOPQRSTUVWXYZ0123456789"


def rand_label(rng, maxlen=12):
    n = rng.choice([1, 1, 2, 3, 5, 8, maxlen, rng.randint(1, maxlen)])
    first = rng.choice(LDH[:52] + b"_")
    rest = bytes(rng.choice(LDH + b"-") for _ in range(n - 1))
    return bytes([first]) + rest


def rand_hostname(rng, big=False):
    """labels (LDH/underscore, each <= 62 bytes), printable as a dotted name the grammar accepts."""
    r = rng.random()
    if big and r < 0.3:
        labels = [rand_label(rng, 62) if rng.random() < 0.5 else b"x" * 62 for _ in range(rng.randint(1, 4))]
    else:
        labels = [rand_label(rng) for _ in range(rng.randint(1, 4))]
    while G.wire_len(labels) > 253:
        labels = labels[1:]
    # a name made only of digits and dots is rejected by hostname_parser unless it does not end in a dot
    return labels


def dotted(labels, trailing=False):
    return b".".join(labels) + (b"." if trailing else b"")


def ws(rng, minimum=1):
    n = rng.choice([minimum, minimum, 1, 2, 3])
    n = max(n, minimum)
    return bytes(rng.choice(b" \t") for _ in range(n))


def kw(rng, word):
    return bytes((c ^ 0x20) if (rng.random() < 0.4 and chr(c).isalpha()) else c for c in word)


class TRec:
    pass


TYPES = ["A", "AAAA", "NS", "CNAME", "PTR", "TXT", "MX", "SOA", "DS"]
TNUM = {"A": 1, "AAAA": 28, "NS": 2, "CNAME": 5, "PTR": 12, "TXT": 16, "MX": 15, "SOA": 6, "DS": 43}


def rand_record(rng, t=None, boundary=False):
    r = TRec()
    r.t = t or rng.choice(TYPES)
    r.name = rand_hostname(rng, big=boundary)
    r.name_trailing = rng.random() < 0.5
    r.ttl = rng.choice([0, 1, 60, 3600, 2 ** 31, 2 ** 32 - 1, rng.randint(0, 2 ** 32 - 1)])
    if r.t == "A":
        r.ip = bytes(rng.choice([0, 1, 10, 127, 255, rng.randint(0, 255)]) for _ in range(4))
    elif r.t == "AAAA":
        r.groups = [rng.choice([0, 0, 1, 0xFFFF, 0x2001, 0xDB8, rng.randint(0, 0xFFFF)]) for _ in range(8)]
    elif r.t in ("NS", "CNAME", "PTR"):
        r.target = rand_hostname(rng, big=boundary)
        r.target_trailing = rng.random() < 0.5
    elif r.t == "TXT":
        n = rng.choice([1, 2, 10, 40, 254, 255, 256, 300, 600, 3570, 3571, 3824, 3825] if boundary else [1, 2, 10, 40, 100])
        r.txt = bytes(rng.choice([rng.randint(32, 126), rng.randint(0, 255), 34, 92]) for _ in range(n))
    elif r.t == "MX":
        r.pref = rng.choice([0, 1, 10, 65535, rng.randint(0, 65535)])
        r.target = rand_hostname(rng, big=boundary)
        r.target_trailing = rng.random() < 0.5
    elif r.t == "SOA":
        r.ns = rand_hostname(rng, big=boundary)
        r.contact = rand_hostname(rng, big=boundary)
        r.nums = [rng.choice([0, 1, 3600, 2 ** 32 - 1, rng.randint(0, 2 ** 32 - 1)]) for _ in range(5)]
    elif r.t == "DS":
        r.key_tag = rng.choice([0, 1, 65535, rng.randint(0, 65535)])
        r.alg = rng.choice([0, 8, 13, 255])
        r.dtype = rng.choice([0, 1, 2, 255])
        r.digest = bytes(rng.randint(0, 255) for _ in range(rng.choice([1, 2, 20, 32, 48])))
    return r


def ipv6_text(rng, groups):
    """One of the textual forms of an IPv6 address (full, '::' compression of a zero run, mixed case)."""
    hexs = [("%x" % g) if rng.random() < 0.7 else ("%04x" % g) for g in groups]
    if rng.random() < 0.5:
        hexs = [h.upper() if rng.random() < 0.5 else h for h in hexs]
    # find zero runs
    runs = []
    i = 0
    while i < 8:
        if groups[i] == 0:
            j = i
            while j < 8 and groups[j] == 0:
                j += 1
            runs.append((i, j))
            i = j
        else:
            i += 1
    if runs and rng.random() < 0.7:
        a, b = rng.choice(runs)
        if rng.random() < 0.3 and b - a > 1:
            b = a + rng.randint(1, b - a)
        left = ":".join(hexs[:a])
        right = ":".join(hexs[b:])
        return (left + "::" + right).encode()
    return ":".join(hexs).encode()


def txt_text(rng, data):
    out = bytearray(b'"')
    for c in data:
        if c == 34 or c == 92 or c < 32 or c > 127 or rng.random() < 0.1:
            out += b"\\%03d" % c
        else:
            out.append(c)
    out += b'"'
    return bytes(out)


def numtxt(rng, n):
    """A number as decimal text, now and then with leading zeros (up to 14 digits in all: the value counts, not the digits)."""
    t = b"%d" % n
    if rng.random() < 0.12:
        t = t.rjust(rng.choice([len(t) + 1, 10, 11, 12, 14]), b"0")
    return t


def fields(rng, r):
    """The text of a record as a list of fields: [name, ttl, class, type, rdata...]."""
    f = [dotted(r.name, r.name_trailing), numtxt(rng, r.ttl), kw(rng, b"IN"), kw(rng, r.t.encode())]
    if r.t == "A":
        f.append(b".".join(b"%d" % x for x in r.ip))
    elif r.t == "AAAA":
        f.append(ipv6_text(rng, r.groups))
    elif r.t in ("NS", "CNAME", "PTR"):
        f.append(dotted(r.target, r.target_trailing))
    elif r.t == "TXT":
        f.append(txt_text(rng, r.txt))
    elif r.t == "MX":
        f += [numtxt(rng, r.pref), dotted(r.target, r.target_trailing)]
    elif r.t == "SOA":
        soa = bytearray(b"(")
        for n in r.nums:
            soa += bytes(rng.choice(b" \t\n \t\n\r\x0b\x0c") for _ in range(rng.randint(1, 2))) + numtxt(rng, n)
        soa += bytes(rng.choice(b" \t\n \t\n\r\x0b\x0c") for _ in range(rng.randint(0, 2))) + b")"
        f += [dotted(r.ns), dotted(r.contact), bytes(soa)]
    elif r.t == "DS":
        hexd = r.digest.hex()
        if rng.random() < 0.5:
            hexd = hexd.upper()
        f += [b"%d" % r.key_tag, b"%d" % r.alg, b"%d" % r.dtype, hexd.encode()]
    return f


def join(rng, f):
    # fields are separated by white space, except that an opening parenthesis may follow a name directly (it ends the name)
    out = ws(rng, 0)
    for i, x in enumerate(f[:-1]):
        out += x
        if f[i + 1].startswith(b"(") and rng.random() < 0.4:
            continue
        out += ws(rng, 1)
    return out + f[-1] + ws(rng, 0)


def render(rng, r):
    return join(rng, fields(rng, r))


def wire(r):
    """RFC 1035 wire form of the record (the oracle)."""
    if r.t == "A":
        rd = r.ip
    elif r.t == "AAAA":
        rd = b"".join(struct.pack(">H", g) for g in r.groups)
    elif r.t in ("NS", "CNAME", "PTR"):
        rd = G.wire_name(r.target)
    elif r.t == "TXT":
        rd = b""
        d = r.txt
        while d:
            rd += bytes([min(255, len(d))]) + d[:255]
            d = d[255:]
    elif r.t == "MX":
        rd = struct.pack(">H", r.pref) + G.wire_name(r.target)
    elif r.t == "SOA":
        rd = G.wire_name(r.ns) + G.wire_name(r.contact) + b"".join(struct.pack(">I", n) for n in r.nums)
    elif r.t == "DS":
        rd = struct.pack(">HBB", r.key_tag, r.alg, r.dtype) + r.digest
    return G.wire_name(r.name) + struct.pack(">HHIH", TNUM[r.t], 1, r.ttl, len(rd)) + rd


def only_numeric_dot(labels, trailing):
    """hostname_parser rejects names made of digits and dots only when they end in a dot."""
    return trailing and all(l.isdigit() for l in labels)


def grammar_ok(r):
    """Is the rendered text inside the supported grammar (so that success is required)?"""
    if only_numeric_dot(r.name, r.name_trailing):
        return False
    for attr in ("target",):
        if hasattr(r, attr) and only_numeric_dot(getattr(r, attr), getattr(r, "target_trailing", False)):
            return False
    if r.t == "TXT" and len(r.txt) > 3825:
        return False
    return True


def damage(rng, r):
    """Texts outside the grammar, built field by field: each must be an error."""
    out = []

    def variant(edit):
        f = fields(rng, r)
        f2 = edit(list(f))
        if f2 is not None and f2 != f:
            out.append(join(rng, f2))

    variant(lambda f: f[:rng.randrange(len(f))] + f[rng.randrange(len(f)) + 1:] if False else f[:-1])  # missing last field
    k = rng.randrange(4)
    variant(lambda f: f[:k] + f[k + 1:])  # missing header field
    variant(lambda f: f + [b"extra"])  # surplus field
    variant(lambda f: f[:2] + [b"CH"] + f[3:])  # unsupported class
    variant(lambda f: f[:1] + [b"4294967296"] + f[2:])  # TTL out of range
    variant(lambda f: f[:1] + [b"-1"] + f[2:])
    variant(lambda f: f[:1] + [b"1x"] + f[2:])
    variant(lambda f: f[:3] + [b"SRV"] + f[4:])  # unsupported type
    if r.t == "A":
        variant(lambda f: f[:4] + [f[4].rsplit(b".", 1)[0] + b".256"])
        variant(lambda f: f[:4] + [f[4].rsplit(b".", 1)[0]])
        variant(lambda f: f[:4] + [f[4] + b".1"])
        variant(lambda f: f[:4] + [f[4].replace(b".", b":")])
    if r.t == "AAAA":
        variant(lambda f: f[:4] + [b"1:2:3:4:5:6:7:8:9"])
        variant(lambda f: f[:4] + [f[4] + b"g"])
        variant(lambda f: f[:4] + [f[4] + b":::"])
        variant(lambda f: f[:4] + [b"1:2:3:4:5:6:7"])
        variant(lambda f: f[:4] + [b"12345::"])
        variant(lambda f: f[:4] + [b"::1::"])
    if r.t == "TXT":
        variant(lambda f: f[:4] + [f[4][:-1]])  # unbalanced quote
        variant(lambda f: f[:4] + [f[4][:-1] + b"\\256\""])
        variant(lambda f: f[:4] + [f[4][:-1] + b"\\1\""])
        variant(lambda f: f[:4] + [b"\"\""])  # empty string
        variant(lambda f: f[:4] + [f[4][1:]])
    if r.t == "MX":
        variant(lambda f: f[:4] + [b"65536", f[5]])
        variant(lambda f: f[:4] + [f[5]])
    if r.t == "DS":
        variant(lambda f: f[:7] + [f[7] + b"a"])  # odd number of hex digits
        variant(lambda f: f[:7] + [f[7] + b"zz"])
        variant(lambda f: f[:7])  # no digest
        variant(lambda f: f[:4] + [b"65536"] + f[5:])
        variant(lambda f: f[:5] + [b"256"] + f[6:])
    if r.t == "SOA":
        variant(lambda f: f[:6] + [f[6][:-1]])  # missing ')'
        variant(lambda f: f[:6] + [f[6][1:]])  # missing '('
        variant(lambda f: f[:6] + [f[6].replace(b"%d" % r.nums[-1] + b")", b"4294967296)").replace(b"%d" % r.nums[-1] + b" ", b"4294967296 ")
                                   if (b"%d" % r.nums[-1]) != b"4294967296" else None])
        variant(lambda f: f[:6] + [b"( 1 2 3 4 )"])
    if r.t in ("NS", "CNAME", "PTR"):
        variant(lambda f: f[:4] + [f[4] + b"..x"])
        variant(lambda f: f[:4] + [b"a" * 64 + b".com"])
    variant(lambda f: [b"a..b"] + f[1:])  # empty interior label in the owner
    variant(lambda f: [b"a" * 64 + b".x"] + f[1:])
    return out


# ---- host names (C14) -----------------------------------------------------------------------------

def expected_labels(name, zone_labels):
    """The labels the conversion must produce for an accepted name."""
    if name in (b"", b"."):
        return []
    trailing = name.endswith(b".")
    body = name[:-1] if trailing else name
    labels = body.split(b".")
    if not trailing and zone_labels is not None:
        labels = labels + zone_labels
    return labels


def ldh_name_ok(name):
    """Names the statement says MUST be accepted: LDH/underscore labels of at most 62 bytes."""
    if name in (b"", b"."):
        return False
    body = name[:-1] if name.endswith(b".") else name
    labels = body.split(b".")
    return all(0 < len(l) <= 62 and all(c in LDH + b"-_" for c in l) for l in labels)


def must_reject(name):
    body = name[:-1] if name.endswith(b".") and name != b"." else name
    if name in (b"", b"."):
        return False
    labels = body.split(b".")
    if any(len(l) == 0 for l in labels):
        return True  # empty interior (or leading) label
    if any(len(l) > 63 for l in labels):
        return True
    return False
