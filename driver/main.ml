(* Correspondence driver: runs the extracted Coq *model* (model.ml) on script cases.
   Same input/output format as harness/src/main.rs; the two outputs are diffed by tools/check.py.
   This file only converts text <-> the Gallina data types and prints observations. *)

open Model

(* ---- conversions --------------------------------------------------------------------- *)

let nat_of_int (i : int) : nat =
  let rec go acc k = if k <= 0 then acc else go (S acc) (k - 1) in
  go O i

let int_of_nat (n : nat) : int =
  let rec go acc = function O -> acc | S m -> go (acc + 1) m in
  go 0 n

let rec pos_of_int (i : int) : positive =
  if i <= 1 then XH
  else if i land 1 = 0 then XO (pos_of_int (i lsr 1))
  else XI (pos_of_int (i lsr 1))

let n_of_int (i : int) : n = if i <= 0 then N0 else Npos (pos_of_int i)

let rec int_of_pos = function
  | XH -> 1
  | XO p -> 2 * int_of_pos p
  | XI p -> (2 * int_of_pos p) + 1

let int_of_n = function N0 -> 0 | Npos p -> int_of_pos p

let hexval c =
  match c with
  | '0' .. '9' -> Char.code c - 48
  | 'a' .. 'f' -> Char.code c - 87
  | 'A' .. 'F' -> Char.code c - 55
  | _ -> failwith "bad hex in case file"

let unhex (s : string) : n list =
  if s = "-" then []
  else begin
    let l = ref [] in
    let len = String.length s / 2 in
    for i = len - 1 downto 0 do
      l := n_of_int ((hexval s.[2 * i] * 16) + hexval s.[(2 * i) + 1]) :: !l
    done;
    !l
  end

let hex (b : n list) : string =
  if b = [] then "-"
  else begin
    let buf = Buffer.create 64 in
    List.iter (fun x -> Buffer.add_string buf (Printf.sprintf "%02x" (int_of_n x land 255))) b;
    Buffer.contents buf
  end

let errname = function
  | PacketTooSmall -> "PacketTooSmall"
  | PacketTooLarge -> "PacketTooLarge"
  | UnsupportedClass -> "UnsupportedClass"
  | InternalError -> "InternalError"
  | InvalidName -> "InvalidName"
  | InvalidPacket -> "InvalidPacket"
  | UnsupportedRRType -> "UnsupportedRRType"
  | UnsupportedRRClass -> "UnsupportedRRClass"
  | VoidRecord -> "VoidRecord"
  | PropertyNotFound -> "PropertyNotFound"
  | WrongAddressFamily -> "WrongAddressFamily"
  | ParseError -> "ParseError"

let err e = "ERR:" ^ errname e

exception Model_panic of int

let on_res (r : 'a res) (f : 'a -> string) : string =
  match r with Ok a -> f a | Err e -> err e | Panic s -> raise (Model_panic (int_of_n s))

let on_nat = function None -> "-" | Some x -> string_of_int (int_of_nat x)
let on_n = function None -> "-" | Some x -> string_of_int (int_of_n x)

let view (pp : ppacket) : string =
  Printf.sprintf "q=%s an=%s ns=%s ar=%s ed=%s ec=%d rc=%s ver=%s xf=%s mc=%d mp=%d"
    (on_nat pp.pp_offset_question) (on_nat pp.pp_offset_answers)
    (on_nat pp.pp_offset_nameservers) (on_nat pp.pp_offset_additional)
    (on_nat pp.pp_offset_edns) (int_of_n pp.pp_edns_count) (on_n pp.pp_ext_rcode)
    (on_n pp.pp_edns_version) (on_n pp.pp_ext_flags)
    (if pp.pp_maybe_compressed then 1 else 0)
    (int_of_n pp.pp_max_payload)

let split_on c s = String.split_on_char c s

let sec_of = function
  | "q" -> SQuestion | "an" -> SAnswer | "ns" -> SNameServers | "ar" -> SAdditional
  | _ -> failwith "bad section in case file"

let secname = function
  | SQuestion -> "q" | SAnswer -> "an" | SNameServers -> "ns" | SAdditional -> "ar" | SEdns -> "ed"

let parse_acts (s : string) : action list =
  if s = "" || s = "_" then []
  else
    List.map
      (fun a ->
        let t = String.sub a 1 (String.length a - 1) in
        match a.[0] with
        | 'n' -> AName | 'r' -> ARawName | 't' -> AType | 'c' -> AClass | 'l' -> ATtl
        | 'd' -> ARdlen | 'D' -> ARd | 'i' -> AIp | 's' -> ASection | 'o' -> AOffsets
        | 'T' -> ASetTtl (n_of_int (int_of_string t))
        | 'A' -> ASetIp (unhex t)
        | 'M' -> ASetRawName (unhex t)
        | 'X' -> ADelete | 'V' -> AUncompress | 'B' -> ABreak
        | _ -> failwith "bad action in case file")
      (split_on '.' s)

let chr (tag : n) = String.make 1 (Char.chr (int_of_n tag))

let show_obs = function
  | ObsSep -> "|"
  | ObsBytes (t, b) -> Printf.sprintf "%s=%s" (chr t) (hex b)
  | ObsBytesLen (t, b, l) -> Printf.sprintf "%s=%s/%d" (chr t) (hex b) (int_of_nat l)
  | ObsNum (t, v) -> Printf.sprintf "%s=%d" (chr t) (int_of_n v)
  | ObsIp (t, b) -> Printf.sprintf "%s=ip:%s" (chr t) (hex b)
  | ObsErr (t, e) -> Printf.sprintf "%s=%s" (chr t) (err e)
  | ObsOk t -> Printf.sprintf "%s=OK" (chr t)
  | ObsSection s -> Printf.sprintf "s=%s" (secname s)
  | ObsOffsets (o, ne) ->
    Printf.sprintf "o=%s/%s" (on_nat o) (match o with Some _ -> string_of_int (int_of_nat ne) | None -> "-")
  | ObsEdns (c, d) -> Printf.sprintf "|e=%d/%s" (int_of_n c) (hex d)
  | ObsLimit -> "LIMIT"

let qtriple = function
  | None -> "-"
  | Some ((nm, t), c) -> Printf.sprintf "%s/%d/%d" (hex nm) (int_of_n t) (int_of_n c)

(* ---- one op ---------------------------------------------------------------------------- *)

type ctx = { mutable pp : ppacket option }

(* run an object operation of the Gallina script language and print its output *)
let do_op (ctx : ctx) (pp : ppacket) (o : op) (label : string) : string =
  let pp', r = exec_op o pp in
  ctx.pp <- Some pp';
  match r with
  | Panic s -> raise (Model_panic (int_of_n s))
  | Err e -> err e
  | Ok OutOk -> "OK"
  | Ok (OutErr e) -> err e
  | Ok (OutQ r) -> Printf.sprintf "%s=%s" label (qtriple r)
  | Ok (OutQT r) ->
    (match r with None -> label ^ "=-" | Some (t, c) -> Printf.sprintf "%s=%d/%d" label (int_of_n t) (int_of_n c))
  | Ok (OutObs l) -> Printf.sprintf "W[%s]" (String.concat " " (List.map show_obs l))

(* facade walk plans: N<hextext>:<zone> (set_name) is set_raw_name of the converted name *)
let facade_plan (plan : string) : string =
  String.concat "/"
    (List.map
       (fun part ->
         let star, body = if String.length part > 0 && part.[0] = '*' then ("*", String.sub part 1 (String.length part - 1)) else ("", part) in
         star
         ^ String.concat "."
             (List.map
                (fun a ->
                  if String.length a > 0 && a.[0] = 'N' then begin
                    match split_on ':' (String.sub a 1 (String.length a - 1)) with
                    | [txt; zone] ->
                      let z = if zone = "-" || zone = "+" then None else Some (unhex zone) in
                      (match raw_name_from_str (unhex txt) z with
                       | Ok raw -> "M" ^ hex raw
                       | _ -> "M" ^ "c00c")   (* a name conversion error surfaces as M=ERR *)
                    | _ -> a
                  end else a)
                (split_on '.' body)))
       (split_on '/' plan))

let get (r : 'a res) : 'a =
  match r with Ok a -> a | Err _ -> failwith "unexpected Err in getter" | Panic s -> raise (Model_panic (int_of_n s))

let rec run_obj_op (ctx : ctx) (pp : ppacket) (f : string array) : string =
  match f.(0) with
  | "F" ->
    (* facade op: in the model each table entry IS the native operation (facade_refines_native) *)
    let g = Array.sub f 1 (Array.length f - 1) in
    (match g.(0) with
     | "g" -> run_obj_op ctx pp [| "fg" |]
     | "W" -> run_obj_op ctx pp [| "W"; g.(1); "0"; (if Array.length g > 2 then facade_plan g.(2) else "*") |]
     | "b" ->
       (* the capacity a hook states; the shipped header's buffer (DNS_MAX_PACKET_SIZE = 8192) when the script gives none *)
       let cap = if Array.length g > 1 then int_of_string g.(1) else 8192 in
       if cap < List.length pp.pp_packet then "b=TOOBIG" else "b=" ^ hex pp.pp_packet
     | "Z" -> on_res (raw_name_from_str (unhex g.(1)) None) (fun v -> "OK:" ^ hex v)
     | _ -> run_obj_op ctx pp g)
  | "fg" ->
    Printf.sprintf "fg[fl=%d rc=%d op=%d]" (int_of_n (get (pp_flags pp))) (int_of_n (get (pp_rcode pp)))
      (int_of_n (get (pp_opcode pp)))
  | "fq" ->
    (match do_op ctx pp OQuestion "q2" with
     | "q2=-" -> "fq=-"
     | s ->
       (* q2=<name>/<type>/<class> -> fq=<name>/<type> *)
       (match split_on '/' (String.sub s 3 (String.length s - 3)) with
        | [n; t; _] -> Printf.sprintf "fq=%s/%s" n t
        | _ -> s))
  | "we" ->
    (match do_op ctx pp OWalkEdns "" with
     | s when String.length s >= 3 && String.sub s 0 2 = "W[" ->
       let body = String.sub s 2 (String.length s - 3) in
       let n = if body = "" then 0 else List.length (split_on ' ' body) in
       Printf.sprintf "we=%d" n
     | s -> s)
  | "b" -> "b=" ^ hex pp.pp_packet
  | "v" -> Printf.sprintf "v[%s]" (view pp)
  | "fp" ->
    (match parse pp.pp_packet with
     | Ok fp -> Printf.sprintf "fp[%s]" (view fp)
     | Err e -> Printf.sprintf "fp[%s]" (err e)
     | Panic s -> raise (Model_panic (int_of_n s)))
  | "ca" -> "ca=" ^ qtriple pp.pp_cached
  | "g" ->
    Printf.sprintf "g[tid=%d fl=%d rc=%d op=%d qr=%d sec=%d mp=%d]"
      (int_of_n (get (pp_tid pp))) (int_of_n (get (pp_flags pp))) (int_of_n (get (pp_rcode pp)))
      (int_of_n (get (pp_opcode pp)))
      (if get (pp_is_response pp) then 1 else 0)
      (if get (pp_dnssec pp) then 1 else 0)
      (int_of_n pp.pp_max_payload)
  | "q0" -> do_op ctx pp OQuestionRaw0 "q0"
  | "q1" -> do_op ctx pp OQuestionRaw "q1"
  | "q2" -> do_op ctx pp OQuestion "q2"
  | "qt" -> do_op ctx pp OQtypeQclass "qt"
  | "st" -> do_op ctx pp (OSetTid (n_of_int (int_of_string f.(1) land 0xffff))) ""
  | "sf" -> do_op ctx pp (OSetFlags (n_of_int (int_of_string f.(1) land 0xffffffff))) ""
  | "sr" -> do_op ctx pp (OSetRcode (n_of_int (int_of_string f.(1) land 0xff))) ""
  | "so" -> do_op ctx pp (OSetOpcode (n_of_int (int_of_string f.(1) land 0xff))) ""
  | "sp" -> do_op ctx pp (OSetResponse (f.(1) = "1")) ""
  | "I" -> do_op ctx pp (OInsertText (sec_of f.(1), unhex f.(2))) ""
  | "IQ" -> do_op ctx pp (OInsertQuestion (unhex f.(1), n_of_int (int_of_string f.(2)))) ""
  | "IR" -> do_op ctx pp (OInsertRaw (sec_of f.(1), unhex f.(2), n_of_int (int_of_string f.(3)), nat_of_int (int_of_string f.(4)))) ""
  | "rn" -> do_op ctx pp (ORename (unhex f.(1), unhex f.(2), f.(3) = "1")) ""
  | "rc" -> do_op ctx pp ORecompute ""
  | "W" ->
    if f.(1) = "ed" then do_op ctx pp OWalkEdns ""
    else begin
      let plan = if Array.length f > 3 then f.(3) else "*" in
      let per = ref [] and def = ref [] in
      List.iter
        (fun part ->
          if String.length part > 0 && part.[0] = '*' then def := parse_acts (String.sub part 1 (String.length part - 1))
          else per := parse_acts part :: !per)
        (split_on '/' plan);
      do_op ctx pp (OWalk (sec_of f.(1), f.(2) = "1", List.rev !per, !def)) ""
    end
  | _ -> "UNIMPL"

let err_text = function
  | 0 -> "Invalid_name_in_a_DNS_record:_Spurious_dot_in_a_label"
  | 1 -> "Invalid_name_in_a_DNS_record:_Label_too_long"
  | 2 -> "Invalid_name_in_a_DNS_record:_Name_too_long"
  | 3 -> "Invalid_name_in_a_DNS_record:_Non-ASCII_character_in_a_label"
  | 4 -> "Parse_error"
  | 5 -> "Invalid_DNS_packet:_A_DNS_packet_can_only_contain_up_to_one_question"
  | 6 -> "Invalid_name_in_a_DNS_record:_A_non-empty_name_cannot_start_with_a_NUL_byte"
  | 7 -> "Invalid_name_in_a_DNS_record:_Empty_name"
  | 8 -> "Invalid_name_in_a_DNS_record:_Invalid_internal_offset"
  | 9 -> "Invalid_name_in_a_DNS_record:_Forward/self_reference"
  | 10 -> "Invalid_name_in_a_DNS_record:_Label_length_too_long"
  | 11 -> "Invalid_name_in_a_DNS_record:_Out-of-bounds_name"
  | _ -> "Invalid_name_in_a_DNS_record:_Unexpected_character_in_name"

(* C16: the schedule is run by the Gallina slot model; failing calls print rc=-1 *)
let run_schedule (steps : string) : string =
  (* 'f' = failing call with an error pointer, 'n' = the same call without one (the code then leaves the thread's slot alone: no
     operation of the slot model), 'r' = read *)
  let parsed =
    List.map
      (fun s ->
        match split_on ':' s with
        | [t; a] ->
          let t = nat_of_int (int_of_string t) in
          if a.[0] = 'f' || a.[0] = 'x' then ('f', Some (CFail (t, n_of_int (1 + (int_of_string (String.sub a 1 (String.length a - 1)) mod 13)))))
          else if a.[0] = 'n' then ('n', None)
          else ('r', Some (CRead t))
        | _ -> failwith "bad schedule step")
      (split_on '.' steps)
  in
  let ops = List.filter_map snd parsed in
  let reads = ref (run_sched slots_init ops) in
  let outs =
    List.map
      (fun (k, _) ->
        match k with
        | 'f' | 'n' -> "rc=-1"
        | _ ->
          (match !reads with
           | (_, r) :: rest ->
             reads := rest;
             (match r with None -> "nofail" | Some m -> err_text (int_of_n m - 1))
           | [] -> "?"))
      parsed
  in
  Printf.sprintf "H[%s]" (String.concat " " outs)

(* C16: thread 0 fails and stays alive, n short-lived threads then fail one after the other, thread 0 reads *)
let run_sequential (n : int) : string =
  let rec build i t acc = if i > n then List.rev acc else build (i + 1) (S t) (CFail (S t, n_of_int (1 + ((1 + i mod 4) mod 13))) :: acc) in
  let ops = (CFail (O, n_of_int 1) :: build 1 O []) @ [CRead O] in
  match List.rev (run_sched slots_init ops) with
  | (_, r) :: _ -> Printf.sprintf "HS[%s]" (match r with None -> "nofail" | Some m -> err_text (int_of_n m - 1))
  | [] -> "HS[?]"

let rec run_op (ctx : ctx) (op : string) : string =
  if String.length op > 3 && String.sub op 0 3 = "HP|" then begin
    (* C17: in the model every entry point is a function of its argument *)
    match split_on '|' op with
    | [_; x; _] -> "SAME:" ^ run_op { pp = None } x
    | _ -> failwith "bad HP op"
  end else
  if String.length op > 3 && String.sub op 0 3 = "HL|" then begin
    match split_on '|' op with
    | [_; _; x; _; _] -> "SAME:" ^ run_op { pp = None } x
    | _ -> failwith "bad HL op"
  end else
  let f = Array.of_list (split_on ',' op) in
  match f.(0) with
  | "H" | "HM" -> run_schedule f.(2)
  | "HS" -> run_sequential (int_of_string f.(1))
  | "PR" ->
    let r1 = run_op ctx ("P," ^ f.(1)) in
    let r2 = run_op ctx "rc" in
    let r3 = run_op ctx "b" in
    r1 ^ "|" ^ r2 ^ "|" ^ r3
  | "PF" ->
    let r1 = run_op ctx ("P," ^ f.(1)) in
    let rest = String.concat "," (Array.to_list (Array.sub f 2 (Array.length f - 2))) in
    let r2 = run_op ctx ("F," ^ rest) in
    let r3 = run_op ctx "b" in
    r1 ^ "|" ^ r2 ^ "|" ^ r3
  | "K" ->
    let p = unhex f.(1) and off = nat_of_int (int_of_string f.(2)) in
    on_res (check_compressed_name p off) (fun n -> Printf.sprintf "OK:%d" (int_of_nat n))
  | "N" ->
    let p = unhex f.(1) and off = nat_of_int (int_of_string f.(2)) in
    on_res (check_uncompressed_name p off) (fun n -> Printf.sprintf "OK:%d" (int_of_nat n))
  | "O" ->
    let p = unhex f.(1) in
    let ops =
      if Array.length f > 2 then
        List.map
          (fun o ->
            let t = String.sub o 1 (String.length o - 1) in
            match o.[0] with
            | 's' -> CSetOffset (nat_of_int (int_of_string t))
            | 'i' -> CIncrementOffset (nat_of_int (int_of_string t))
            | 'r' -> CRrRdlen
            | 'e' -> CEdnsRrRdlen
            | _ -> failwith "bad cursor op in case file")
          (split_on '.' f.(2))
      else []
    in
    on_res (cursor_run p ps_init ops) (fun (s, outs) ->
        Printf.sprintf "O[%s]@%d" (String.concat " " (List.map on_nat outs)) (int_of_nat s.ps_off))
  | "P" ->
    let p = unhex f.(1) in
    let r, steps = parse_c p in
    let steps = int_of_nat steps in
    (match r with
     | Ok pp ->
       ctx.pp <- Some pp;
       Printf.sprintf "OK:%s same=%d steps=%d" (view pp) (if pp.pp_packet = p then 1 else 0) steps
     | Err e -> Printf.sprintf "%s steps=%d" (err e) steps
     | Panic s -> raise (Model_panic (int_of_n s)))
  | "U" ->
    let p = unhex f.(1) and off = nat_of_int (int_of_string f.(2)) in
    on_res (uncompress_with_previous_offset p off) (fun (v, o) -> Printf.sprintf "OK:%s@%d" (hex v) (int_of_nat o))
  | "C" -> on_res (compress (unhex f.(1))) (fun v -> "OK:" ^ hex v)
  | "DD" ->
    (* a dictionary is a value: what another dictionary is used for in between cannot matter *)
    let names = List.map unhex (split_on '.' f.(1)) in
    let rec go d out = function
      | [] -> Ok out
      | n :: rest ->
        (match copy_compressed_name d out n (nat_of_int 0) with
         | Ok (((out', d'), _), _) -> go d' out' rest
         | Err e -> Err e
         | Panic s -> Panic s)
    in
    on_res (go sd_new (unhex "000000000000000000000000") names) (fun v -> Printf.sprintf "DD:%s|%s" (hex v) (hex v))
  | "CU" ->
    on_res (compress (unhex f.(1))) (fun v ->
        match uncompress_with_previous_offset v (nat_of_int 12) with
        | Ok (u, _) -> Printf.sprintf "OK:%s|%s" (hex v) (hex u)
        | Err e -> Printf.sprintf "OK:%s|%s" (hex v) (err e)
        | Panic s -> raise (Model_panic (int_of_n s)))
  | "Y" -> on_res (rr_from_string (unhex f.(1))) (fun v -> "OK:" ^ hex v)
  | "Z" ->
    let z = if f.(2) = "-" then None else Some (unhex f.(2)) in
    on_res (raw_name_from_str (unhex f.(1)) z) (fun v -> "OK:" ^ hex v)
  | "ZP" ->
    let z = if f.(3) = "-" then None else Some (unhex f.(3)) in
    on_res (copy_raw_name_from_str (unhex f.(1)) (unhex f.(2)) z) (fun v -> "OK:" ^ hex v)
  | "R" ->
    (match parse (unhex f.(1)) with
     | Err e -> "PARSE-" ^ err e
     | Panic s -> raise (Model_panic (int_of_n s))
     | Ok pp -> on_res (renamer_rename pp (unhex f.(2)) (unhex f.(3)) (f.(4) = "1")) (fun v -> "OK:" ^ hex v))
  | "RR" ->
    on_res (replace_raw (unhex f.(1)) (unhex f.(2)) (unhex f.(3)) (f.(4) = "1"))
      (function None -> "OK:none" | Some v -> "OK:" ^ hex v)
  | "E" ->
    on_res (pp_empty (n_of_int (int_of_string f.(1)))) (fun pp -> ctx.pp <- Some pp; "OK")
  | "Q" ->
    on_res (gen_query (n_of_int (int_of_string f.(3))) (unhex f.(1)) (n_of_int (int_of_string f.(2))) (n_of_int 1))
      (fun pp -> ctx.pp <- Some pp; "OK")
  | _ ->
    (match ctx.pp with
     | None -> "NOOBJ"
     | Some pp -> run_obj_op ctx pp f)

let () =
  try
    while true do
      let line = input_line stdin in
      if line <> "" then begin
        match split_on '\t' line with
        | [] -> ()
        | id :: ops ->
          let ctx = { pp = None } in
          let obs = ref [] in
          (try
             List.iter (fun op -> obs := run_op ctx op :: !obs) ops
           with Model_panic s -> obs := Printf.sprintf "PANIC" :: !obs; ignore s);
          print_string id;
          print_char '\t';
          print_string (String.concat "\t" (List.rev !obs));
          print_newline ()
      end
    done
  with End_of_file -> ()
