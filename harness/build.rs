// Compiles the C driver (cdriver/driver.c) with the system C compiler against the header shipped with
// the library under test, and links it into the harness.
use std::env;
use std::path::PathBuf;
use std::process::Command;

fn main() {
    let out = PathBuf::from(env::var("OUT_DIR").unwrap());
    let repo = env::var("DV_REPO").unwrap_or_else(|_| "/repo".to_string());
    let hdr_dir = format!("{}/src/bin/c_hook", repo);
    let src = "/verif/cdriver/driver.c";
    let obj = out.join("driver.o");
    let lib = out.join("libdvc.a");
    let cc = env::var("CC").unwrap_or_else(|_| "cc".to_string());
    let st = Command::new(&cc)
        .args(["-c", "-O1", "-g", "-fPIC", "-std=gnu11", "-Wall", "-Wno-int-conversion", "-Wno-incompatible-pointer-types",
               "-Wno-discarded-qualifiers", "-Wno-incompatible-pointer-types-discards-qualifiers", "-Wno-unknown-warning-option"])
        .arg(format!("-I{}", hdr_dir))
        .arg(src)
        .arg("-o")
        .arg(&obj)
        .status()
        .expect("cannot run the C compiler");
    assert!(st.success(), "the C driver does not compile against the shipped header");
    let st = Command::new("ar").arg("rcs").arg(&lib).arg(&obj).status().expect("cannot run ar");
    assert!(st.success());
    println!("cargo:rustc-link-search=native={}", out.display());
    println!("cargo:rustc-link-lib=static=dvc");
    println!("cargo:rerun-if-changed={}", src);
    println!("cargo:rerun-if-changed={}/c_hook.h", hdr_dir);
}
