// Correspondence harness: runs the *implementation* (/repo's working tree) on script cases.
// One case per input line:  id \t op \t op ...     Output:  id \t obs \t obs ...
// See DESIGN.md section 4.2 for the script language. The OCaml driver (driver/main.ml) runs the
// extracted Coq model on the same lines and must print the same observations.

use std::io::{self, BufRead, Write};
use std::net::{IpAddr, Ipv4Addr, Ipv6Addr};
use std::panic::{self, AssertUnwindSafe};

use dnssector::constants::*;
use dnssector::synth::r#gen;
use dnssector::*;

extern "C" {
    fn dv_c_op(
        table: *const dnssector::c_abi::FnTable,
        pp: *mut ParsedPacket,
        op: *const std::os::raw::c_char,
        out: *mut std::os::raw::c_char,
        cap: usize,
    ) -> i32;
}

/// One facade operation issued through the C function table by the C driver.
fn facade(pp: &mut ParsedPacket, op: &str) -> String {
    let table = dnssector::c_abi::fn_table();
    let cop = std::ffi::CString::new(op).unwrap();
    let mut out = vec![0u8; 1 << 20];
    unsafe {
        dv_c_op(&table, pp, cop.as_ptr(), out.as_mut_ptr() as *mut _, out.len());
    }
    let n = out.iter().position(|&c| c == 0).unwrap_or(out.len());
    String::from_utf8_lossy(&out[..n]).to_string()
}

fn unhex(s: &str) -> Vec<u8> {
    if s == "-" {
        return Vec::new();
    }
    let b = s.as_bytes();
    let mut v = Vec::with_capacity(b.len() / 2);
    let d = |c: u8| -> u8 {
        match c {
            b'0'..=b'9' => c - b'0',
            b'a'..=b'f' => c - b'a' + 10,
            b'A'..=b'F' => c - b'A' + 10,
            _ => panic!("bad hex in case file"),
        }
    };
    let mut i = 0;
    while i + 1 < b.len() {
        v.push(d(b[i]) * 16 + d(b[i + 1]));
        i += 2;
    }
    v
}

fn hex(b: &[u8]) -> String {
    if b.is_empty() {
        return "-".to_string();
    }
    let mut s = String::with_capacity(b.len() * 2);
    for x in b {
        s.push_str(&format!("{:02x}", x));
    }
    s
}

fn errname(e: &Error) -> &'static str {
    match e.downcast_ref::<DSError>() {
        Some(DSError::PacketTooSmall) => "PacketTooSmall",
        Some(DSError::PacketTooLarge) => "PacketTooLarge",
        Some(DSError::UnsupportedClass(_)) => "UnsupportedClass",
        Some(DSError::InternalError(_)) => "InternalError",
        Some(DSError::InvalidName(_)) => "InvalidName",
        Some(DSError::InvalidPacket(_)) => "InvalidPacket",
        Some(DSError::UnsupportedRRType(_)) => "UnsupportedRRType",
        Some(DSError::UnsupportedRRClass(_)) => "UnsupportedRRClass",
        Some(DSError::VoidRecord) => "VoidRecord",
        Some(DSError::PropertyNotFound) => "PropertyNotFound",
        Some(DSError::WrongAddressFamily) => "WrongAddressFamily",
        Some(DSError::ParseError) => "ParseError",
        None => "Other",
    }
}

fn err(e: &Error) -> String {
    format!("ERR:{}", errname(e))
}

fn on(o: Option<usize>) -> String {
    match o {
        None => "-".to_string(),
        Some(x) => x.to_string(),
    }
}

fn view(pp: &ParsedPacket) -> String {
    format!(
        "q={} an={} ns={} ar={} ed={} ec={} rc={} ver={} xf={} mc={} mp={}",
        on(pp.offset_question),
        on(pp.offset_answers),
        on(pp.offset_nameservers),
        on(pp.offset_additional),
        on(pp.offset_edns),
        pp.edns_count,
        on(pp.ext_rcode.map(|x| x as usize)),
        on(pp.edns_version.map(|x| x as usize)),
        on(pp.ext_flags.map(|x| x as usize)),
        if pp.maybe_compressed { 1 } else { 0 },
        pp.max_payload
    )
}

#[cfg(dnssector_verif)]
fn steps_reset() {
    dnssector::verif_hooks::reset();
}
#[cfg(dnssector_verif)]
fn steps_get() -> u64 {
    dnssector::verif_hooks::steps()
}
#[cfg(not(dnssector_verif))]
fn steps_reset() {}
#[cfg(not(dnssector_verif))]
fn steps_get() -> u64 {
    0
}

fn sec_of(s: &str) -> Section {
    match s {
        "q" => Section::Question,
        "an" => Section::Answer,
        "ns" => Section::NameServers,
        "ar" => Section::Additional,
        _ => panic!("bad section in case file"),
    }
}

fn qtriple(x: Option<(&[u8], u16, u16)>) -> String {
    match x {
        None => "-".to_string(),
        Some((n, t, c)) => format!("{}/{}/{}", hex(n), t, c),
    }
}

/// State of one case: the object under test.
struct Ctx {
    pp: Option<ParsedPacket>,
}

// ---- walk support -------------------------------------------------------------------------

#[derive(Clone, Debug)]
enum Act {
    Name,
    RawName,
    Type,
    Class,
    Ttl,
    Rdlen,
    Rd,
    Ip,
    Section,
    Offsets,
    SetTtl(u32),
    SetIp(Vec<u8>),
    SetRawName(Vec<u8>),
    Delete,
    Uncompress,
    Break,
}

fn parse_acts(s: &str) -> Vec<Act> {
    let mut v = Vec::new();
    if s.is_empty() || s == "_" {
        return v;
    }
    for a in s.split('.') {
        let (h, t) = a.split_at(1);
        v.push(match h {
            "n" => Act::Name,
            "r" => Act::RawName,
            "t" => Act::Type,
            "c" => Act::Class,
            "l" => Act::Ttl,
            "d" => Act::Rdlen,
            "D" => Act::Rd,
            "i" => Act::Ip,
            "s" => Act::Section,
            "o" => Act::Offsets,
            "T" => Act::SetTtl(t.parse().unwrap()),
            "A" => Act::SetIp(unhex(t)),
            "M" => Act::SetRawName(unhex(t)),
            "X" => Act::Delete,
            "V" => Act::Uncompress,
            "B" => Act::Break,
            _ => panic!("bad action in case file"),
        });
    }
    v
}

fn secname(s: Section) -> &'static str {
    match s {
        Section::Question => "q",
        Section::Answer => "an",
        Section::NameServers => "ns",
        Section::Additional => "ar",
        Section::Edns => "ed",
    }
}

fn ip_of(b: &[u8]) -> IpAddr {
    if b.len() == 4 {
        let mut a = [0u8; 4];
        a.copy_from_slice(b);
        IpAddr::V4(Ipv4Addr::from(a))
    } else {
        let mut a = [0u8; 16];
        a.copy_from_slice(b);
        IpAddr::V6(Ipv6Addr::from(a))
    }
}

fn ipstr(ip: &IpAddr) -> String {
    match ip {
        IpAddr::V4(a) => hex(&a.octets()),
        IpAddr::V6(a) => hex(&a.octets()),
    }
}

/// Actions available on every cursor with a name and type (question and response cursors).
fn act_typed<T: DNSIterable + TypedIterable>(item: &mut T, a: &Act, out: &mut Vec<String>) -> bool {
    match a {
        Act::Name => out.push(format!("n={}", hex(&item.name()))),
        Act::RawName => {
            // the accessor APPENDS to the caller's vector and returns the length of the name: called on an empty vector and on
            // one that already holds bytes, the appended bytes and the returned length must be the same
            let mut v = Vec::new();
            let l = item.copy_raw_name(&mut v);
            let mut w = vec![0xaau8, 0xbb, 0xcc, 0xdd, 0xee];
            let l2 = item.copy_raw_name(&mut w);
            if w.len() < 5 || w[..5] != [0xaau8, 0xbb, 0xcc, 0xdd, 0xee] || w[5..] != v[..] || l2 != l {
                out.push(format!("r={}/{}!appending-to-a-non-empty-vector:{}/{}", hex(&v), l, hex(&w), l2));
            } else {
                out.push(format!("r={}/{}", hex(&v), l));
            }
        }
        Act::Type => out.push(format!("t={}", item.rr_type())),
        Act::Class => out.push(format!("c={}", item.rr_class())),
        Act::Section => out.push(match item.current_section() {
            Ok(s) => format!("s={}", secname(s)),
            Err(e) => format!("s={}", err(&e)),
        }),
        Act::Offsets => out.push(format!(
            "o={}/{}",
            on(item.offset()),
            if item.offset().is_some() {
                item.raw().name_end.to_string()
            } else {
                "-".to_string()
            }
        )),
        Act::SetRawName(n) => out.push(match item.set_raw_name(n) {
            Ok(()) => "M=OK".to_string(),
            Err(e) => format!("M={}", err(&e)),
        }),
        Act::Delete => out.push(match item.delete() {
            Ok(()) => "X=OK".to_string(),
            Err(e) => format!("X={}", err(&e)),
        }),
        Act::Uncompress => out.push(match item.uncompress() {
            Ok(()) => "V=OK".to_string(),
            Err(e) => format!("V={}", err(&e)),
        }),
        Act::Break => return true,
        _ => return false,
    }
    false
}

fn act_rdata<T: DNSIterable + TypedIterable + RdataIterable>(
    item: &mut T,
    a: &Act,
    out: &mut Vec<String>,
) -> bool {
    match a {
        Act::Ttl => out.push(format!("l={}", item.rr_ttl())),
        Act::Rdlen => out.push(format!("d={}", item.rr_rdlen())),
        Act::Rd => out.push(match item.rr_rd() {
            Ok(RawRRData::IpAddr(ip)) => format!("D=ip:{}", ipstr(&ip)),
            Ok(RawRRData::Data(d)) => format!("D={}", hex(d)),
            Err(e) => format!("D={}", err(&e)),
        }),
        Act::Ip => out.push(match item.rr_ip() {
            Ok(ip) => format!("i={}", ipstr(&ip)),
            Err(e) => format!("i={}", err(&e)),
        }),
        Act::SetTtl(t) => {
            item.set_rr_ttl(*t);
            out.push("T=OK".to_string())
        }
        Act::SetIp(b) => out.push(match item.set_rr_ip(&ip_of(b)) {
            Ok(()) => "A=OK".to_string(),
            Err(e) => format!("A={}", err(&e)),
        }),
        _ => return act_typed(item, a, out),
    }
    false
}

const WALK_LIMIT: usize = 4000;

fn walk(pp: &mut ParsedPacket, sec: &str, incl_opt: bool, plan: &str) -> String {
    // plan: a0/a1/.../*adef
    let mut per: Vec<Vec<Act>> = Vec::new();
    let mut def: Vec<Act> = Vec::new();
    for part in plan.split('/') {
        if let Some(rest) = part.strip_prefix('*') {
            def = parse_acts(rest);
        } else {
            per.push(parse_acts(part));
        }
    }
    let mut out: Vec<String> = Vec::new();
    let mut k = 0usize;
    match sec {
        "q" => {
            let mut it = pp.into_iter_question();
            while let Some(mut item) = it {
                out.push("|".to_string());
                let acts = if k < per.len() { &per[k] } else { &def };
                let mut brk = false;
                for a in acts {
                    if act_typed(&mut item, a, &mut out) {
                        brk = true;
                        break;
                    }
                }
                k += 1;
                if brk || k > WALK_LIMIT {
                    break;
                }
                it = item.next();
            }
        }
        "an" | "ns" | "ar" => {
            let mut it = match sec {
                "an" => pp.into_iter_answer(),
                "ns" => pp.into_iter_nameservers(),
                _ => {
                    if incl_opt {
                        pp.into_iter_additional_including_opt()
                    } else {
                        pp.into_iter_additional()
                    }
                }
            };
            while let Some(mut item) = it {
                out.push("|".to_string());
                let acts = if k < per.len() { &per[k] } else { &def };
                let mut brk = false;
                for a in acts {
                    if act_rdata(&mut item, a, &mut out) {
                        brk = true;
                        break;
                    }
                }
                k += 1;
                if brk || k > WALK_LIMIT {
                    break;
                }
                it = if incl_opt { item.next_including_opt() } else { item.next() };
            }
        }
        "ed" => {
            let mut it = pp.into_iter_edns();
            while let Some(item) = it {
                let raw = item.raw();
                // code, length and payload of the option, decoded from the raw cursor
                let p = raw.packet;
                let o = raw.offset;
                let code = ((p[o] as u16) << 8) | p[o + 1] as u16;
                let len = (((p[o + 2] as u16) << 8) | p[o + 3] as u16) as usize;
                out.push(format!("|e={}/{}", code, hex(&p[o + 4..o + 4 + len])));
                k += 1;
                if k > WALK_LIMIT {
                    break;
                }
                it = item.next();
            }
        }
        _ => panic!("bad section in case file"),
    }
    if k > WALK_LIMIT {
        out.push("LIMIT".to_string());
    }
    format!("W[{}]", out.join(" "))
}

// ---- one op -------------------------------------------------------------------------------

// ---- C16: barrier-scripted interleavings of failing table calls and error_description reads ------

const ERR_KINDS: usize = 13;
static LAST_CERR: std::sync::atomic::AtomicPtr<dnssector::c_abi::CErr> = std::sync::atomic::AtomicPtr::new(std::ptr::null_mut());

fn schedule(nthreads: usize, steps: &str, named_main: bool) -> String {
    use std::ffi::CStr;
    use std::sync::{Arc, Condvar, Mutex};
    // steps: "t:f<kind>" | "t:r", '.'-separated, executed in exactly this global order
    let parsed: Vec<(usize, char, usize)> = steps
        .split('.')
        .map(|s| {
            let (t, a) = s.split_once(':').unwrap();
            let kind = if a.len() > 1 { a[1..].parse().unwrap() } else { 0 };
            (t.parse().unwrap(), a.as_bytes()[0] as char, kind)
        })
        .collect();
    let parsed = Arc::new(parsed);
    // one gate per step (opened by the step before it): a single shared condition variable would wake every waiting thread at
    // every step, which is quadratic with thousands of threads
    let gates: Arc<Vec<(Mutex<bool>, Condvar)>> =
        Arc::new((0..parsed.len() + 1).map(|i| (Mutex::new(i == 0), Condvar::new())).collect());
    let results = Arc::new(Mutex::new(vec![String::new(); parsed.len()]));
    let mut handles = Vec::new();
    for t in 0..nthreads {
        let parsed = parsed.clone();
        let gates = gates.clone();
        let results = results.clone();
        let builder = std::thread::Builder::new().stack_size(256 * 1024);
        // HM: every thread of the schedule carries the name the runtime gives the initial thread
        let builder = if named_main { builder.name("main".to_string()) } else { builder };
        handles.push(builder.spawn(move || {
            let table = dnssector::c_abi::fn_table();
            let base: Vec<u8> = vec![0, 7, 0x81, 0x80, 0, 1, 0, 0, 0, 0, 0, 0, 1, b'q', 0, 0, 1, 0, 1];
            let mut pp = DNSSector::new(base).unwrap().parse().unwrap();
            let mut c_err: *const dnssector::c_abi::CErr = std::ptr::null();
            for (i, (st, act, kind)) in parsed.iter().enumerate() {
                if *st != t {
                    continue;
                }
                {
                    let (lock, cv) = &gates[i];
                    let mut g = lock.lock().unwrap();
                    while !*g {
                        g = cv.wait(g).unwrap();
                    }
                }
                let out = unsafe {
                    match act {
                        'f' => {
                            let rc = failing_call(*kind, &mut c_err, &mut pp);
                            LAST_CERR.store(c_err as *mut _, std::sync::atomic::Ordering::SeqCst);
                            format!("rc={}", rc)
                        }
                        'x' => {
                            // the error slot handed to the call still holds the pointer another thread obtained last (a C caller
                            // need not clear an out-parameter): what it holds must not matter
                            let prev = LAST_CERR.load(std::sync::atomic::Ordering::SeqCst);
                            if !prev.is_null() {
                                c_err = prev as *const _;
                            }
                            let rc = failing_call(*kind, &mut c_err, &mut pp);
                            LAST_CERR.store(c_err as *mut _, std::sync::atomic::Ordering::SeqCst);
                            format!("rc={}", rc)
                        }
                        'n' => {
                            // the same failing call made without an error pointer (as the bundled C hook does for most calls)
                            let rc = failing_call(*kind, std::ptr::null_mut(), &mut pp);
                            format!("rc={}", rc)
                        }
                        _ => {
                            if c_err.is_null() {
                                "nofail".to_string()
                            } else {
                                let p = (table.error_description)(c_err);
                                CStr::from_ptr(p).to_string_lossy().replace(' ', "_")
                            }
                        }
                    }
                };
                results.lock().unwrap()[i] = out;
                let (lock, cv) = &gates[i + 1];
                *lock.lock().unwrap() = true;
                cv.notify_all();
            }
        }).unwrap());
    }
    for h in handles {
        if h.join().is_err() {
            return "PANIC-IN-THREAD".to_string();
        }
    }
    let r = results.lock().unwrap();
    format!("H[{}]", r.join(" "))
}

/// One failing table call of the given kind (the same five as in `schedule`).
unsafe fn failing_call(kind: usize, c_err: *mut *const dnssector::c_abi::CErr, pp: &mut ParsedPacket) -> i32 {
    let table = dnssector::c_abi::fn_table();
    let mut raw = [0u8; 256];
    let mut raw_len: usize = 0;
    match kind % ERR_KINDS {
        0 => {
            let n = b"a..b";
            (table.raw_name_from_str)(&mut raw, &mut raw_len, c_err, n.as_ptr() as *const _, n.len())
        }
        1 => {
            let n = [b'a'; 64];
            (table.raw_name_from_str)(&mut raw, &mut raw_len, c_err, n.as_ptr() as *const _, n.len())
        }
        2 => {
            let n = [b'a'; 300];
            (table.raw_name_from_str)(&mut raw, &mut raw_len, c_err, n.as_ptr() as *const _, n.len())
        }
        3 => {
            let n = [0xc3u8, 0xa9];
            (table.raw_name_from_str)(&mut raw, &mut raw_len, c_err, n.as_ptr() as *const _, n.len())
        }
        4 => {
            let txt = b"not a record\0";
            (table.add_to_answer)(pp, c_err, txt.as_ptr() as *const _)
        }
        5 => {
            // the two longest descriptions the table can produce (a buffer sized for the usual ones would spill)
            let txt = b"second.example. 0 IN A 1.2.3.4\0";
            (table.add_to_question)(pp, c_err, txt.as_ptr() as *const _)
        }
        6 => {
            let bad = [0u8, 1, b'a', 0];
            let src = [1u8, b'q', 0];
            (table.rename_with_raw_names)(pp, c_err, bad.as_ptr(), bad.len(), src.as_ptr(), src.len(), false)
        }
        7 => {
            let src = [1u8, b'q', 0];
            (table.rename_with_raw_names)(pp, c_err, src.as_ptr(), 0, src.as_ptr(), src.len(), false)
        }
        k => {
            // set_raw_name through the answer iterator of a packet that has an answer: the names the checker refuses, one description each
            let bad: &[u8] = match k {
                8 => &[1, b'a', 0xc0],
                9 => &[0xc0, 0x0c],
                10 => &[0x40, b'a', 0],
                11 => &[5, b'a'],
                _ => &[1, 1, 0],
            };
            let with_answer: Vec<u8> = vec![0, 7, 0x81, 0x80, 0, 1, 0, 1, 0, 0, 0, 0, 1, b'q', 0, 0, 1, 0, 1, 0xc0, 12, 0, 1, 0, 1, 0, 0, 0, 9, 0, 4, 1, 2, 3, 4];
            let mut pp2 = DNSSector::new(with_answer).unwrap().parse().unwrap();
            struct Ctx {
                name: *const u8,
                len: usize,
                c_err: *mut *const dnssector::c_abi::CErr,
                rc: i32,
            }
            unsafe extern "C" fn cb(ctx: *mut std::ffi::c_void, it: *const dnssector::c_abi::SectionIterator) -> bool {
                let table = dnssector::c_abi::fn_table();
                let c = &mut *(ctx as *mut Ctx);
                c.rc = (table.set_raw_name)(&mut *(it as *mut dnssector::c_abi::SectionIterator), c.c_err, c.name, c.len);
                false
            }
            let mut ctx = Ctx { name: bad.as_ptr(), len: bad.len(), c_err, rc: 0 };
            (table.iter_answer)(&mut pp2, cb, &mut ctx as *mut Ctx as *mut std::ffi::c_void);
            ctx.rc
        }
    }
}

/// C16: thread A fails once and stays alive; `n` short-lived threads then make their first failing call one after the
/// other (each exits before the next starts); A then reads its description. Any table of slots handed out by a wrapping
/// counter gives A the description of the thread that wrapped onto its slot.
fn sequential_failures(n: usize) -> String {
    use std::ffi::CStr;
    use std::sync::mpsc::channel;
    let base: Vec<u8> = vec![0, 7, 0x81, 0x80, 0, 1, 0, 0, 0, 0, 0, 0, 1, b'q', 0, 0, 1, 0, 1];
    let (failed_tx, failed_rx) = channel::<()>();
    let (go_tx, go_rx) = channel::<()>();
    let b0 = base.clone();
    let a = std::thread::spawn(move || {
        let table = dnssector::c_abi::fn_table();
        let mut pp = DNSSector::new(b0).unwrap().parse().unwrap();
        let mut c_err: *const dnssector::c_abi::CErr = std::ptr::null();
        unsafe {
            failing_call(0, &mut c_err, &mut pp);
        }
        failed_tx.send(()).unwrap();
        go_rx.recv().unwrap();
        unsafe {
            let p = (table.error_description)(c_err);
            CStr::from_ptr(p).to_string_lossy().replace(' ', "_")
        }
    });
    failed_rx.recv().unwrap();
    for i in 1..=n {
        let b = base.clone();
        let h = std::thread::Builder::new().stack_size(128 * 1024).spawn(move || {
            let mut pp = DNSSector::new(b).unwrap().parse().unwrap();
            let mut c_err: *const dnssector::c_abi::CErr = std::ptr::null();
            unsafe {
                failing_call(1 + i % 4, &mut c_err, &mut pp);
            }
        });
        if h.unwrap().join().is_err() {
            return "PANIC-IN-THREAD".to_string();
        }
    }
    go_tx.send(()).unwrap();
    match a.join() {
        Ok(s) => format!("HS[{}]", s),
        Err(_) => "PANIC-IN-THREAD".to_string(),
    }
}

/// C17: f(x) alone, after f(y), and concurrently on 8 threads must be byte-identical.
fn purity(opx: &str, opy: &str) -> String {
    let fresh = |op: &str| -> String {
        let mut c = Ctx { pp: None };
        run_op(&mut c, op)
    };
    let r1 = fresh(opx);
    let _ = fresh(opy);
    let r2 = fresh(opx);
    if r1 != r2 {
        return format!("DIFF-AFTER-OTHER:{}|{}", r1, r2);
    }
    // same thread, shared context object reused
    let mut c = Ctx { pp: None };
    let _ = run_op(&mut c, opy);
    let r3 = run_op(&mut c, opx);
    if r1 != r3 {
        return format!("DIFF-SAME-CONTEXT:{}|{}", r1, r3);
    }
    let mut hs = Vec::new();
    for k in 0..8 {
        let (ox, oy) = (opx.to_string(), opy.to_string());
        hs.push(std::thread::spawn(move || {
            let mut outs = Vec::new();
            for j in 0..6 {
                let mut c = Ctx { pp: None };
                if (j + k) % 2 == 0 {
                    let _ = run_op(&mut c, &oy);
                }
                let mut c2 = Ctx { pp: None };
                outs.push(run_op(&mut c2, &ox));
            }
            outs
        }));
    }
    for h in hs {
        match h.join() {
            Err(_) => return "PANIC-IN-THREAD".to_string(),
            Ok(outs) => {
                for o in outs {
                    if o != r1 {
                        return format!("DIFF-CONCURRENT:{}|{}", r1, o);
                    }
                }
            }
        }
    }
    format!("SAME:{}", r1)
}

/// C17: f(x) on a fresh thread, and f(x) on a thread that first ran f(y) once and f(z) n times, must be byte-identical
/// (n is chosen around 2^8 and 2^16: generation counters and epochs that wrap).
fn purity_long(n: usize, opx: &str, opy: &str, opz: &str) -> String {
    let fresh = |op: &str| -> String {
        let mut c = Ctx { pp: None };
        run_op(&mut c, op)
    };
    let ox = opx.to_string();
    let r1 = match std::thread::spawn(move || { let mut c = Ctx { pp: None }; run_op(&mut c, &ox) }).join() {
        Ok(r) => r,
        Err(_) => return "PANIC-IN-THREAD".to_string(),
    };
    let (ox, oy, oz) = (opx.to_string(), opy.to_string(), opz.to_string());
    let r2 = match std::thread::spawn(move || {
        let fresh = |op: &str| -> String {
            let mut c = Ctx { pp: None };
            run_op(&mut c, op)
        };
        let _ = fresh(&oy);
        for _ in 0..n {
            let _ = fresh(&oz);
        }
        fresh(&ox)
    })
    .join()
    {
        Ok(r) => r,
        Err(_) => return "PANIC-IN-THREAD".to_string(),
    };
    let _ = fresh;
    if r1 != r2 {
        return format!("DIFF-AFTER-LONG:{}|{}", r1, r2);
    }
    format!("SAME:{}", r1)
}

fn run_op(ctx: &mut Ctx, op: &str) -> String {
    if let Some(rest) = op.strip_prefix("HL|") {
        let f: Vec<&str> = rest.splitn(4, '|').collect();
        return purity_long(f[0].parse().unwrap(), f[1], f[2], f[3]);
    }
    if let Some(rest) = op.strip_prefix("HP|") {
        let (x, y) = rest.split_once('|').unwrap();
        return purity(x, y);
    }
    let f: Vec<&str> = op.split(',').collect();
    match f[0] {
        // ---- stateless -------------------------------------------------------------
        "H" => schedule(f[1].parse().unwrap(), f[2], false),
        "HM" => schedule(f[1].parse().unwrap(), f[2], true),
        "HS" => sequential_failures(f[1].parse().unwrap()),
        // parse, one operation through the C function table, the bytes: as one operation (for the purity pairs of C17)
        "PF" => {
            let r1 = run_op(ctx, &format!("P,{}", f[1]));
            let r2 = run_op(ctx, &format!("F,{}", f[2..].join(",")));
            let r3 = run_op(ctx, "b");
            format!("{}|{}|{}", r1, r2, r3)
        }
        // parse, recompute (called directly), the bytes: as one operation (for the purity pairs of C17)
        "PR" => {
            let r1 = run_op(ctx, &format!("P,{}", f[1]));
            let r2 = run_op(ctx, "rc");
            let r3 = run_op(ctx, "b");
            format!("{}|{}|{}", r1, r2, r3)
        }
        "K" => {
            let p = unhex(f[1]);
            let off: usize = f[2].parse().unwrap();
            match Compress::check_compressed_name(&p, off) {
                Ok(n) => format!("OK:{}", n),
                Err(e) => err(&e),
            }
        }
        "N" => {
            let p = unhex(f[1]);
            let off: usize = f[2].parse().unwrap();
            match DNSSector::check_uncompressed_name(&p, off) {
                Ok(n) => format!("OK:{}", n),
                Err(e) => err(&e),
            }
        }
        "O" => {
            let p = unhex(f[1]);
            let mut ds = DNSSector::new(p).unwrap();
            let mut out = Vec::new();
            if f.len() > 2 {
                for o in f[2].split('.') {
                    let (h, t) = o.split_at(1);
                    let r = match h {
                        "s" => ds.set_offset(t.parse().unwrap()).ok(),
                        "i" => ds.increment_offset(t.parse().unwrap()).ok(),
                        "r" => ds.rr_rdlen().ok(),
                        "e" => ds.edns_rr_rdlen().ok(),
                        _ => panic!("bad cursor op in case file"),
                    };
                    out.push(on(r));
                }
            }
            if ds.offset > ds.packet.len() {
                // state invariant named by C01's anchors
                return format!("BADOFFSET:{}", ds.offset);
            }
            format!("O[{}]@{}", out.join(" "), ds.offset)
        }
        "P" => {
            let p = unhex(f[1]);
            steps_reset();
            let r = DNSSector::new(p.clone()).unwrap().parse();
            let steps = steps_get();
            match r {
                Ok(pp) => {
                    let same = pp.packet() == &p[..];
                    let s = format!("OK:{} same={} steps={}", view(&pp), same as u8, steps);
                    ctx.pp = Some(pp);
                    s
                }
                Err(e) => format!("{} steps={}", err(&e), steps),
            }
        }
        "U" => {
            let p = unhex(f[1]);
            let off: usize = f[2].parse().unwrap();
            match Compress::uncompress_with_previous_offset(&p, off) {
                Ok((v, o)) => format!("OK:{}@{}", hex(&v), o),
                Err(e) => err(&e),
            }
        }
        "C" => {
            let p = unhex(f[1]);
            match Compress::compress(&p) {
                Ok(v) => format!("OK:{}", hex(&v)),
                Err(e) => err(&e),
            }
        }
        "DD" => {
            // C17: name emission with one dictionary, alone and with another dictionary used on the same thread in between
            let names: Vec<Vec<u8>> = f[1].split('.').map(unhex).collect();
            let other = unhex(f[2]);
            let run = |interleave: bool| -> Vec<u8> {
                let mut dict = SuffixDict::new();
                let mut out = vec![0u8; 12];
                for n in &names {
                    Compress::copy_compressed_name(&mut dict, &mut out, n, 0);
                    if interleave {
                        let mut d2 = SuffixDict::new();
                        let mut o2 = vec![0u8; 12];
                        Compress::copy_compressed_name(&mut d2, &mut o2, &other, 0);
                        Compress::copy_compressed_name(&mut d2, &mut o2, n, 0);
                    }
                }
                out
            };
            format!("DD:{}|{}", hex(&run(false)), hex(&run(true)))
        }
        "CU" => {
            // compress, then decompress the result
            let p = unhex(f[1]);
            match Compress::compress(&p) {
                Ok(v) => match Compress::uncompress(&v) {
                    Ok(u) => format!("OK:{}|{}", hex(&v), hex(&u)),
                    Err(e) => format!("OK:{}|{}", hex(&v), err(&e)),
                },
                Err(e) => err(&e),
            }
        }
        "Y" => {
            let t = unhex(f[1]);
            match std::str::from_utf8(&t) {
                Err(_) => "NOTUTF8".to_string(),
                Ok(s) => match r#gen::RR::from_string(s) {
                    Ok(rr) => format!("OK:{}", hex(&rr.packet)),
                    Err(e) => err(&e),
                },
            }
        }
        "Z" => {
            let n = unhex(f[1]);
            let z = if f[2] == "-" { None } else { Some(unhex(f[2])) };
            match r#gen::raw_name_from_str(&n, z.as_deref()) {
                Ok(v) => format!("OK:{}", hex(&v)),
                Err(e) => err(&e),
            }
        }
        "ZP" => {
            // copy_raw_name_from_str appending to a buffer that already holds bytes: ZP,<prefix>,<name>,<zone|->
            let mut v = unhex(f[1]);
            let n = unhex(f[2]);
            let z = if f[3] == "-" { None } else { Some(unhex(f[3])) };
            match r#gen::copy_raw_name_from_str(&mut v, &n, z.as_deref()) {
                Ok(()) => format!("OK:{}", hex(&v)),
                Err(e) => err(&e),
            }
        }
        "R" => {
            // Renamer on a fresh parse: R,<packet>,<target>,<source>,<suffix>
            let p = unhex(f[1]);
            let t = unhex(f[2]);
            let s = unhex(f[3]);
            let sfx = f[4] == "1";
            match DNSSector::new(p).unwrap().parse() {
                Err(e) => format!("PARSE-{}", err(&e)),
                Ok(mut pp) => match Renamer::rename_with_raw_names(&mut pp, &t, &s, sfx) {
                    Ok(v) => format!("OK:{}", hex(&v)),
                    Err(e) => err(&e),
                },
            }
        }
        "RR" => {
            // Renamer::replace_raw: RR,<name>,<target>,<source>,<suffix>
            let n = unhex(f[1]);
            let t = unhex(f[2]);
            let s = unhex(f[3]);
            let sfx = f[4] == "1";
            match Renamer::replace_raw(&n, &t, &s, sfx) {
                Ok(None) => "OK:none".to_string(),
                Ok(Some(v)) => format!("OK:{}", hex(&v)),
                Err(e) => err(&e),
            }
        }
        // ---- object constructors -------------------------------------------------------
        "E" => {
            let mut pp = ParsedPacket::empty();
            // the one permitted randomness (C17): overwrite the random id at once
            let tid: u16 = f[1].parse().unwrap();
            pp.set_tid(tid);
            ctx.pp = Some(pp);
            "OK".to_string()
        }
        "Q" => {
            let n = unhex(f[1]);
            let t: u16 = f[2].parse().unwrap();
            let tid: u16 = f[3].parse().unwrap();
            let ty = type_of(t);
            match r#gen::query(&n, ty, Class::IN) {
                Ok(mut pp) => {
                    pp.set_tid(tid);
                    ctx.pp = Some(pp);
                    "OK".to_string()
                }
                Err(e) => err(&e),
            }
        }
        // ---- on the object ---------------------------------------------------------------
        _ => {
            let pp = match ctx.pp.as_mut() {
                None => return "NOOBJ".to_string(),
                Some(pp) => pp,
            };
            match f[0] {
                "F" => facade(pp, &op[2..]),
                "fg" => format!("fg[fl={} rc={} op={}]", pp.flags(), pp.rcode(), pp.opcode()),
                "fq" => match pp.question() {
                    None => "fq=-".to_string(),
                    Some((n, t, _)) => format!("fq={}/{}", hex(&n), t),
                },
                "we" => {
                    let mut n = 0usize;
                    let mut it = pp.into_iter_edns();
                    while let Some(item) = it {
                        n += 1;
                        it = item.next();
                    }
                    format!("we={}", n)
                }
                "b" => format!("b={}", hex(pp.packet())),
                "v" => format!("v[{}]", view(pp)),
                "fp" => {
                    // fresh parse of the object's own bytes (C08 oracle)
                    match DNSSector::new(pp.packet().to_vec()).unwrap().parse() {
                        Ok(f) => format!("fp[{}]", view(&f)),
                        Err(e) => format!("fp[{}]", err(&e)),
                    }
                }
                "ca" => match &pp.cached {
                    None => "ca=-".to_string(),
                    Some((n, t, c)) => format!("ca={}/{}/{}", hex(n), t, c),
                },
                "g" => format!(
                    "g[tid={} fl={} rc={} op={} qr={} sec={} mp={}]",
                    pp.tid(),
                    pp.flags(),
                    pp.rcode(),
                    pp.opcode(),
                    pp.is_response() as u8,
                    pp.dnssec() as u8,
                    pp.max_payload()
                ),
                "q0" => format!("q0={}", qtriple(pp.question_raw0())),
                "q1" => format!("q1={}", qtriple(pp.question_raw())),
                "q2" => match pp.question() {
                    None => "q2=-".to_string(),
                    Some((n, t, c)) => format!("q2={}/{}/{}", hex(&n), t, c),
                },
                "qt" => match pp.qtype_qclass() {
                    None => "qt=-".to_string(),
                    Some((t, c)) => format!("qt={}/{}", t, c),
                },
                "st" => {
                    pp.set_tid(f[1].parse::<u32>().unwrap() as u16);
                    "OK".to_string()
                }
                "sf" => {
                    pp.set_flags(f[1].parse::<u64>().unwrap() as u32);
                    "OK".to_string()
                }
                "sr" => {
                    pp.set_rcode(f[1].parse::<u32>().unwrap() as u8);
                    "OK".to_string()
                }
                "so" => {
                    pp.set_opcode(f[1].parse::<u32>().unwrap() as u8);
                    "OK".to_string()
                }
                "sp" => {
                    pp.set_response(f[1] == "1");
                    "OK".to_string()
                }
                "I" => {
                    let t = unhex(f[2]);
                    match std::str::from_utf8(&t) {
                        Err(_) => "NOTUTF8".to_string(),
                        Ok(s) => match pp.insert_rr_from_string(sec_of(f[1]), s) {
                            Ok(()) => "OK".to_string(),
                            Err(e) => err(&e),
                        },
                    }
                }
                "IQ" => {
                    let n = unhex(f[1]);
                    let t: u16 = f[2].parse().unwrap();
                    match r#gen::RR::new_question(&n, type_of(t), Class::IN) {
                        Err(e) => err(&e),
                        Ok(rr) => match pp.insert_rr(Section::Question, rr) {
                            Ok(()) => "OK".to_string(),
                            Err(e) => err(&e),
                        },
                    }
                }
                "IR" => {
                    // RR::new with f[4] bytes of data, then insert_rr: the public way to hand in a record of any size
                    let sec = sec_of(f[1]);
                    let n = unhex(f[2]);
                    let t: u16 = f[3].parse().unwrap();
                    let rdlen: usize = f[4].parse().unwrap();
                    let hdr = r#gen::RRHeader { name: n, ttl: 1, class: Class::IN, rr_type: type_of(t) };
                    match r#gen::RR::new(hdr, &vec![0x61u8; rdlen]) {
                        Err(e) => err(&e),
                        Ok(rr) => match pp.insert_rr(sec, rr) {
                            Ok(()) => "OK".to_string(),
                            Err(e) => err(&e),
                        },
                    }
                }
                "rn" => {
                    let t = unhex(f[1]);
                    let s = unhex(f[2]);
                    match pp.rename_with_raw_names(&t, &s, f[3] == "1") {
                        Ok(()) => "OK".to_string(),
                        Err(e) => err(&e),
                    }
                }
                "rc" => match pp.recompute() {
                    Ok(()) => "OK".to_string(),
                    Err(e) => err(&e),
                },
                "W" => walk(pp, f[1], f.len() > 2 && f[2] == "1", if f.len() > 3 { f[3] } else { "*" }),
                _ => panic!("bad op in case file: {}", op),
            }
        }
    }
}

fn type_of(t: u16) -> Type {
    match t {
        1 => Type::A,
        2 => Type::NS,
        5 => Type::CNAME,
        6 => Type::SOA,
        12 => Type::PTR,
        15 => Type::MX,
        16 => Type::TXT,
        28 => Type::AAAA,
        39 => Type::DNAME,
        43 => Type::DS,
        255 => Type::ANY,
        _ => Type::A,
    }
}

fn main() {
    panic::set_hook(Box::new(|_| {}));
    let stdin = io::stdin();
    // Output goes through a shared buffer so that the watchdog can flush it: a case that runs longer than
    // DV_CASE_LIMIT_MS (default 20 s) is reported as `<id>\tHANG` and the process exits (the cases after it are
    // run again by the caller). Non-termination is thereby an observation like any other, not a lost shard.
    let limit_ms: u128 = std::env::var("DV_CASE_LIMIT_MS").ok().and_then(|v| v.parse().ok()).unwrap_or(20000);
    let state: std::sync::Arc<std::sync::Mutex<(Vec<u8>, Option<(String, std::time::Instant)>)>> =
        std::sync::Arc::new(std::sync::Mutex::new((Vec::new(), None)));
    {
        let state = state.clone();
        std::thread::spawn(move || loop {
            std::thread::sleep(std::time::Duration::from_millis(100));
            let mut g = state.lock().unwrap();
            let hung = match &g.1 {
                Some((id, t0)) if t0.elapsed().as_millis() > limit_ms => Some(id.clone()),
                _ => None,
            };
            if let Some(id) = hung {
                let mut out = std::mem::take(&mut g.0);
                out.extend_from_slice(format!("{}\tHANG\n", id).as_bytes());
                let so = io::stdout();
                let mut so = so.lock();
                let _ = so.write_all(&out);
                let _ = so.flush();
                std::process::exit(0);
            }
        });
    }
    for line in stdin.lock().lines() {
        let line = line.unwrap();
        if line.is_empty() {
            continue;
        }
        let mut parts = line.split('\t');
        let id = parts.next().unwrap();
        state.lock().unwrap().1 = Some((id.to_string(), std::time::Instant::now()));
        let mut ctx = Ctx { pp: None };
        let mut obs: Vec<String> = Vec::new();
        for op in parts {
            let r = panic::catch_unwind(AssertUnwindSafe(|| run_op(&mut ctx, op)));
            match r {
                Ok(s) => obs.push(s),
                Err(_) => {
                    obs.push("PANIC".to_string());
                    break; // the object may be in a torn state: stop this case here
                }
            }
        }
        let mut g = state.lock().unwrap();
        g.1 = None;
        g.0.extend_from_slice(format!("{}\t{}\n", id, obs.join("\t")).as_bytes());
        if g.0.len() > (1 << 16) {
            let out = std::mem::take(&mut g.0);
            let so = io::stdout();
            let mut so = so.lock();
            so.write_all(&out).unwrap();
            so.flush().unwrap();
        }
    }
    let mut g = state.lock().unwrap();
    let out = std::mem::take(&mut g.0);
    let so = io::stdout();
    let mut so = so.lock();
    so.write_all(&out).unwrap();
    so.flush().unwrap();
}
